"""Determinism seams: os.urandom, time.*, ephemeral X25519 secrets.

All patches are installed once per process by `install()`; `reset(seed, loop)`
re-keys the byte stream and binds the clock to a VLoop at the start of every
execution so that two runs of one schedule are byte-identical.
"""

import hashlib
import os
import time

EPOCH = 1_700_000_000
_state = {'key': b'0', 'ctr': 0, 'loop': None, 'installed': False,
          'epoch': 1_700_000_000.0}
_real_urandom = os.urandom
_real_time = time.time
_real_monotonic = time.monotonic


def fake_urandom(n):
    out = b''
    while len(out) < n:
        _state['ctr'] += 1
        out += hashlib.sha256(_state['key'] +
                              _state['ctr'].to_bytes(8, 'big')).digest()
    return out[:n]


def _vtime():
    loop = _state['loop']
    if loop is None:
        return _real_time()
    return _state['epoch'] + loop.time()


def _vmono():
    loop = _state['loop']
    if loop is None:
        return _real_monotonic()
    return loop.time()


def install():
    if _state['installed']:
        return
    _state['installed'] = True
    os.urandom = fake_urandom
    time.time = _vtime
    time.monotonic = _vmono
    # deterministic ephemeral curve25519 secret (OpenSSL's RNG is not seedable)
    from asyncssh.crypto import ed
    from cryptography.hazmat.primitives.asymmetric import x25519

    def _init(self):
        self._priv_key = x25519.X25519PrivateKey.from_private_bytes(fake_urandom(32))
    ed.Curve25519DH.__init__ = _init


def reset(seed, loop=None, epoch=None):
    _state['key'] = str(seed).encode()
    _state['ctr'] = 0
    _state['loop'] = loop
    if epoch is not None:
        _state['epoch'] = epoch


def unbind():
    _state['loop'] = None


def seed_from_env():
    try:
        return int(os.environ.get('VERIF_SEED', '0'))
    except ValueError:
        return 0
