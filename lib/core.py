"""core -- explorers, accumulators, evidence, known findings, parallel map.

Deciding step everywhere: complete enumeration below a stated bound of
executions of the real asyncssh code.  See DESIGN.md 1.2.
"""

import hashlib
import json
import multiprocessing
import os
import sys
import time
import traceback

VERIF = os.path.dirname(os.path.dirname(os.path.abspath(__file__)))
now = time.perf_counter
NPROC = int(os.environ.get('VERIF_PROCS', '0')) or min(16, os.cpu_count() or 1)


def digest(obj):
    return hashlib.sha256(repr(obj).encode('utf-8', 'backslashreplace')).hexdigest()[:16]


class ReplayDivergence(Exception):
    """A recorded choice was out of range while replaying a prefix: hard error"""


class HarnessNondeterminism(Exception):
    pass


class Chooser:
    """Records / replays the choices of one execution.

    choose(n) returns the recorded choice for this point if the prefix covers
    it, else 0 (the canonical default).  Any non-zero choice costs `cost`
    deviations (default 1)."""

    def __init__(self, prefix=()):
        self.prefix = list(prefix)
        self.trace = []         # (n_options, chosen, cost_per_alt, label)

    def choose(self, n, label=None, cost=1):
        if n <= 0:
            raise ValueError('choose(0)')
        i = len(self.trace)
        c = self.prefix[i] if i < len(self.prefix) else 0
        if c >= n:
            raise ReplayDivergence('choice %d at point %d out of range %d (%s)'
                                   % (c, i, n, label))
        self.trace.append((n, c, cost, label))
        return c

    @property
    def choices(self):
        return [c for _, c, _, _ in self.trace]

    def labels(self):
        return [(l, c) for _, c, _, l in self.trace if c]


def explore_dfs(run, bound, check=None, max_execs=None, root_prefix=()):
    """Deviation-bounded stateless DFS (iterative).

    run(chooser) executes the system from scratch and returns an observation;
    check(obs, chooser) is called for each execution.  Every execution whose
    total deviation cost is <= bound is visited exactly once.
    Returns (n_execs, n_choice_points, capped)."""
    stack = [list(root_prefix)]
    n_execs = 0
    n_points = 0
    capped = False
    while stack:
        prefix = stack.pop()
        ch = Chooser(prefix)
        obs = run(ch)
        n_execs += 1
        n_points += len(ch.trace)
        if check is not None:
            check(obs, ch)
        if max_execs is not None and n_execs >= max_execs:
            capped = bool(stack)
            if capped:
                break
        trace = ch.trace
        spent = 0
        costs = []
        for (n, c, cost, _l) in trace:
            costs.append(spent)
            if c:
                spent += cost
        # branch only at points beyond the prefix (earlier ones belong to ancestors)
        for i in range(len(trace) - 1, len(prefix) - 1, -1):
            n, c, cost, _l = trace[i]
            if costs[i] + cost > bound:
                continue
            base = [t[1] for t in trace[:i]]
            for alt in range(n - 1, 0, -1):
                stack.append(base + [alt])
    return n_execs, n_points, capped


class Acc:
    """Mergeable coverage accumulator."""

    def __init__(self):
        self.evaluations = 0
        self.transitions = 0
        self.digests = set()        # distinct non-trivial observation digests
        self.trivial = 0
        self.states = set()
        self.samples = []
        self.violations = []        # dicts: signature, detail, replay
        self.caps = []
        self.counters = {}
        self.notes = []

    def add(self, obs_digest=None, nontrivial=True, transitions=0, sample=None,
            state=None):
        self.evaluations += 1
        self.transitions += transitions
        if obs_digest is not None:
            if nontrivial:
                self.digests.add(obs_digest)
            else:
                self.trivial += 1
        if state is not None:
            self.states.add(state)
        if sample is not None and len(self.samples) < 6:
            self.samples.append(sample)

    def count(self, key, n=1):
        self.counters[key] = self.counters.get(key, 0) + n

    def violation(self, signature, detail, replay):
        n = self.counters.get('viol:' + signature, 0)
        self.count('viol:' + signature)
        if n < 2:
            self.violations.append({'signature': signature, 'detail': detail,
                                    'replay': replay})

    def merge(self, o):
        self.evaluations += o.evaluations
        self.transitions += o.transitions
        self.digests |= o.digests
        self.trivial += o.trivial
        self.states |= o.states
        for s in o.samples:
            if len(self.samples) < 8:
                self.samples.append(s)
        self.caps.extend(o.caps)
        for v in o.violations:
            if sum(1 for x in self.violations if x['signature'] == v['signature']) < 2:
                self.violations.append(v)
        for k, v in o.counters.items():
            self.counters[k] = self.counters.get(k, 0) + v
        self.notes.extend(o.notes)
        return self


def _call(packed):
    func, item = packed
    try:
        return ('ok', func(item))
    except BaseException:       # pylint: disable=broad-except
        return ('err', '%r\n%s' % (item, traceback.format_exc()))


def _call_chunk(chunk):
    return [_call(p) for p in chunk]


def _watched(pool, it):
    """A pool silently replaces a worker that was killed (out of memory, say) and the item it held
    is never reported: the map would wait forever.  Notice the replacement and fail loudly instead."""
    pids = {p.pid for p in pool._pool}          # pylint: disable=protected-access
    while True:
        try:
            yield it.next(timeout=20)
        except StopIteration:
            return
        except multiprocessing.TimeoutError:
            now = {p.pid for p in pool._pool}   # pylint: disable=protected-access
            if now != pids:
                sys.stderr.write('HARNESS-ERROR: a worker process died (killed?); its work item is lost\n')
                pool.terminate()
                raise SystemExit(2) from None


def pmap(func, items, procs=None, chunksize=1):
    """Run func(item)->Acc over items on a fork pool; merge results.
    A harness exception in a worker is a hard error (exit 2), never silence."""
    items = list(items)
    acc = Acc()
    procs = procs or NPROC
    if procs <= 1 or len(items) <= 1:
        results = map(_call, [(func, it) for it in items])
        pool = None
    else:
        ctx = multiprocessing.get_context('fork')
        pool = ctx.Pool(min(procs, len(items)))
        packed = [(func, it) for it in items]
        chunks = [packed[i:i + chunksize] for i in range(0, len(packed), max(1, chunksize))]
        results = (r for rs in _watched(pool, pool.imap_unordered(_call_chunk, chunks)) for r in rs)
    try:
        for status, res in results:
            if status == 'err':
                sys.stderr.write('HARNESS-ERROR in worker:\n%s\n' % res)
                if pool:
                    pool.terminate()
                raise SystemExit(2)
            acc.merge(res)
    finally:
        if pool:
            pool.close()
            pool.join()
    return acc


def rotate(items, seed):
    items = list(items)
    if not items:
        return items
    k = seed % len(items)
    return items[k:] + items[:k]


# ---------------------------------------------------------------------------
# known findings / reporting

def load_known():
    path = os.path.join(VERIF, 'known_findings.json')
    if not os.path.exists(path):
        return []
    with open(path) as f:
        data = json.load(f)
    return data.get('findings', [])


def finish(prop, tier, seed, level, acc, t0, rule, bounds, assumptions=(),
           exhaustive=True, extra=None):
    """Write evidence, print VIOLATION / KNOWN-FINDING lines, return exit code."""
    known = {k['signature']: k for k in load_known() if k.get('property') == prop}
    out_root = os.environ.get('VERIF_OUT', VERIF)      # seed trials write elsewhere
    vdir = os.path.join(out_root, 'violations', prop)
    if os.path.isdir(vdir):
        for fn in os.listdir(vdir):
            if fn.endswith('.json'):
                os.unlink(os.path.join(vdir, fn))
    new = []
    seen_sig = set()
    known_hit = {}
    for v in acc.violations:
        sig = v['signature']
        if sig in known:
            known_hit[sig] = known[sig]
            continue
        if sig in seen_sig:
            continue
        seen_sig.add(sig)
        new.append(v)
    for sig, k in sorted(known_hit.items()):
        print('KNOWN-FINDING: property=%s %s' % (prop, k.get('what', sig)))
    for v in new[:20]:
        os.makedirs(vdir, exist_ok=True)
        path = os.path.join(vdir, digest(v['signature']) + '.json')
        with open(path, 'w') as f:
            json.dump({'property': prop, 'signature': v['signature'],
                       'detail': v['detail'], 'replay': v['replay']}, f, indent=1,
                      default=repr)
        print('VIOLATION property=%s replay=%s' % (prop, path))
        print('  signature: %s' % v['signature'])
        print('  detail: %s' % (str(v['detail'])[:600],))
    cov = {
        'evaluations': acc.evaluations,
        'distinct_nontrivial': len(acc.digests),
        'rule': rule,
        'samples': acc.samples[:8] or ['(none)'],
        'states': max(len(acc.states), len(acc.digests)),
        'transitions': acc.transitions,
        'traces_validated_against_impl': acc.evaluations,
        'exhaustive': bool(exhaustive and not acc.caps),
        'bounds': bounds,
        'caps_hit': acc.caps,
        'trivial_executions': acc.trivial,
        'counters': acc.counters,
        'known_findings_hit': sorted(known_hit),
    }
    if acc.notes:
        cov['notes'] = acc.notes[:40]
    if extra:
        cov.update(extra)
    ev = {
        'property_id': prop, 'tier': tier, 'seed': seed, 'level': level,
        'coverage': cov, 'assumptions': list(assumptions),
        'wall_s': round(now() - t0, 2),
        'violations': len(new),
    }
    os.makedirs(os.path.join(out_root, 'evidence'), exist_ok=True)
    with open(os.path.join(out_root, 'evidence', prop + '.json'), 'w') as f:
        json.dump(ev, f, indent=1, default=repr)
    print('%s %s: executions=%d distinct=%d states=%d transitions=%d violations=%d '
          'known=%d wall=%.1fs' % (prop, tier, acc.evaluations, len(acc.digests),
                                   cov['states'], acc.transitions, len(new),
                                   len(known_hit), ev['wall_s']))
    return 1 if new else 0


# ---------------------------------------------------------------------------
# explicit-state BFS over event histories of the real implementation

def _bfs_call(packed):
    func, cfg, hist = packed
    try:
        return ('ok', hist, func(cfg, hist))
    except BaseException:       # pylint: disable=broad-except
        return ('err', hist, '%r %r\n%s' % (cfg, hist, traceback.format_exc()))


def bfs(expand, cfgs, max_depth, acc, procs=None, max_states=None, sample_every=997):
    """Breadth-first search, one search per cfg, all sharing one worker pool.

    expand(cfg, hist) must rebuild the state reached by `hist` on fresh real
    objects and return a list of (event, canon, violations, ntransitions) for every
    event enabled there, where canon is a hashable canonical form of the successor
    state (or None to stop exploring below it) and violations is a list of
    (signature, detail).  Histories are lists of events (JSON-able tuples)."""
    ctx = multiprocessing.get_context('fork')
    procs = procs or NPROC
    pool = ctx.Pool(procs)
    t_start = now()
    try:
        for cfg in cfgs:
            seen = set()
            frontier = [[]]
            depth = 0
            cfg_states = 0
            md = cfg.get('bfs_depth', max_depth) if isinstance(cfg, dict) else max_depth
            while frontier and depth < md:
                nxt = []
                work = [(expand, cfg, h) for h in frontier]
                for status, hist, res in pool.imap(_bfs_call, work,
                                                   max(1, len(work) // (procs * 8))):
                    if status == 'err':
                        sys.stderr.write('HARNESS-ERROR in worker:\n%s\n' % res)
                        pool.terminate()
                        raise SystemExit(2)
                    for ev, canon, viols, ntrans in res:
                        acc.evaluations += 1
                        acc.transitions += ntrans
                        for sig, detail in viols:
                            acc.violation(sig, detail,
                                          {'cfg': cfg, 'hist': hist + [ev]})
                        if canon is None:
                            continue
                        d = digest((cfg, canon))
                        if d in seen:
                            continue
                        seen.add(d)
                        acc.states.add(d)
                        acc.digests.add(d)
                        cfg_states += 1
                        if len(acc.samples) < 6 and (cfg_states % sample_every) == 1:
                            acc.samples.append({'cfg': cfg, 'hist': hist + [ev]})
                        nxt.append(hist + [ev])
                    if max_states and cfg_states > max_states:
                        acc.caps.append('cfg %r: state cap %d hit at depth %d'
                                        % (cfg, max_states, depth + 1))
                        nxt = []
                        break
                frontier = nxt
                depth += 1
            name = cfg.get('name', repr(cfg)) if isinstance(cfg, dict) else repr(cfg)
            acc.count('bfs_depth_completed:%s' % name, depth)
            acc.count('bfs_states:%s' % name, cfg_states)
            if os.environ.get('VERIF_VERBOSE'):
                sys.stderr.write('bfs %s depth=%d states=%d execs=%d t=%.1fs\n' % (
                    name, depth, cfg_states, acc.evaluations, now() - t_start))
            if frontier:
                acc.count('bfs_frontier_left_at_bound:%s' % name, len(frontier))
    finally:
        pool.close()
        pool.join()
    return acc
