"""rpharness -- worlds that pair one real asyncssh endpoint with a RefPeer."""

import asyncssh

import pair as P
import refpeer as R
from vloop import Livelock


class SrvWorld:
    """real asyncssh *server*  <->  RefPeer client"""

    def __init__(self, seed=0, sopts=None, rp_kw=None, env=None, auto_executor=True,
                 server_factory=None):
        self.loop = P.fresh(seed, auto_executor=auto_executor)
        P.install_wire_labels()
        self.env = env if env is not None else {}
        self.owner = None

        def mk():
            self.owner = (server_factory or P.RecServer)(self.env)
            return self.owner
        sk = dict(server_factory=mk, server_host_keys=[P.key('host')], login_timeout=0,
                  keepalive_interval=0, encoding=None)
        sk.update(sopts or {})
        self.sopt = asyncssh.SSHServerConnectionOptions(**sk)
        self.sopt.waiter = self.loop.create_future()
        self.conn = asyncssh.SSHServerConnection(self.loop, self.sopt, wait='auth')
        kw = dict(rand=__import__('os').urandom)
        kw.update(rp_kw or {})
        self.rp = R.RefPeer('client', **kw)
        self.proto = R.RefProtocol(self.rp)
        self.rt, self.st = self.loop.make_pair(self.proto, self.conn, labels=('ref', 'server'))

    def start(self):
        self.conn.connection_made(self.st)
        self.proto.connection_made(self.rt)
        return self

    def flush(self):
        self.loop.flush_all()

    def kex(self):
        self.start()
        self.flush()
        if self.proto.error:
            raise self.proto.error
        if self.rp.kex_done < 1:
            raise R.RefError('key exchange did not complete: %r' % (self.rp.types(),))
        return self

    def auth(self, user='user', password='pw'):
        self.rp.send(self.rp.service_request())
        self.flush()
        self.rp.send(self.rp.password_request(user, password))
        self.flush()
        if R.MSG_USERAUTH_SUCCESS not in self.rp.types():
            raise R.RefError('auth failed: %r' % (self.rp.types(),))
        return self

    def open_session(self, sender=0, window=2 ** 21, maxpkt=32768, request='shell'):
        n0 = len(self.rp.inbox)
        self.rp.send(self.rp.channel_open_session(sender, window, maxpkt))
        self.flush()
        conf = [p for t, p in self.rp.inbox[n0:] if t == R.MSG_CHANNEL_OPEN_CONFIRMATION]
        if not conf:
            raise R.RefError('no open confirmation: %r' % (self.rp.types()[n0:],))
        r = R.Reader(conf[0], 1)
        assert r.u32() == sender
        remote, rwin, rpkt = r.u32(), r.u32(), r.u32()
        if request:
            self.rp.send(self.rp.channel_request(remote, request, True))
            self.flush()
        return remote, rwin, rpkt

    def close(self):
        P.done(self.loop)

    def server_closed(self):
        return self.conn._transport is None


class CliWorld:
    """real asyncssh *client*  <->  RefPeer server (auto-answers service + auth)"""

    def __init__(self, seed=0, copts=None, rp_kw=None, accept_auth='password',
                 auto_executor=True, auto_auth=True):
        self.loop = P.fresh(seed, auto_executor=auto_executor)
        P.install_wire_labels()
        self.owner = None

        def mk():
            self.owner = P.RecClient()
            return self.owner
        ck = dict(client_factory=mk, known_hosts=None, username='user', password='pw',
                  client_keys=None, agent_path=None, config=None, login_timeout=0,
                  keepalive_interval=0, preferred_auth='password')
        ck.update(copts or {})
        self.copt = asyncssh.SSHClientConnectionOptions(**ck)
        self.copt.waiter = self.loop.create_future()
        self.conn = asyncssh.SSHClientConnection(self.loop, self.copt, wait='auth')
        kw = dict(rand=__import__('os').urandom)
        kw.update(rp_kw or {})
        self.rp = R.RefPeer('server', **kw)
        self.accept_auth = accept_auth
        self.auto_auth = auto_auth
        self.chan_opens = []
        self.rp.on_message = self._on_message
        self.proto = R.RefProtocol(self.rp)
        self.rt, self.ct = self.loop.make_pair(self.proto, self.conn, labels=('ref', 'client'))
        self.auto_channels = True
        self.window = 2 ** 21
        self.maxpkt = 32768

    def _on_message(self, t, p):
        rp = self.rp
        if not self.auto_auth:
            return
        if t == R.MSG_SERVICE_REQUEST:
            rp.send(R.byte(R.MSG_SERVICE_ACCEPT) + p[1:])
        elif t == R.MSG_USERAUTH_REQUEST:
            r = R.Reader(p, 1)
            r.string()
            r.string()
            method = r.string().decode()
            if method == self.accept_auth:
                rp.send(R.byte(R.MSG_USERAUTH_SUCCESS))
                rp.send_dir.authed = rp.recv_dir.authed = True
            else:
                rp.send(R.byte(R.MSG_USERAUTH_FAILURE) + R.namelist([self.accept_auth]) +
                        R.boolean(False))
        elif t == R.MSG_CHANNEL_OPEN and self.auto_channels:
            r = R.Reader(p, 1)
            ctype = r.string()
            sender, win, pkt = r.u32(), r.u32(), r.u32()
            local = 100 + len(self.chan_opens)
            self.chan_opens.append((ctype, sender, win, pkt, local))
            rp.send_app(R.byte(R.MSG_CHANNEL_OPEN_CONFIRMATION) + R.u32(sender) + R.u32(local) +
                        R.u32(self.window) + R.u32(self.maxpkt))
        elif t == R.MSG_CHANNEL_REQUEST and self.auto_channels:
            r = R.Reader(p, 1)
            local = r.u32()
            r.string()
            if r.boolean():
                senders = [c[1] for c in self.chan_opens if c[4] == local]
                if senders:
                    rp.send_app(R.byte(R.MSG_CHANNEL_SUCCESS) + R.u32(senders[0]))

    def start(self):
        self.proto.connection_made(self.rt)
        self.conn.connection_made(self.ct)
        return self

    def flush(self):
        self.loop.flush_all()

    def login(self):
        self.start()
        self.flush()
        if self.proto.error:
            raise self.proto.error
        w = self.copt.waiter
        if not w.done():
            raise R.RefError('client did not authenticate: %r' % (self.rp.types(),))
        w.result()
        return self

    def run(self, coro):
        t = self.loop.create_task(coro)
        self.flush()
        if not t.done():
            raise Livelock('task pending')
        return t.result()

    def close(self):
        P.done(self.loop)
