"""fsmon -- filesystem access monitor for path-confinement checks (C13).

Wraps builtins.open and the os.* calls that take paths.  For every call the *physical*
location is computed before the call (parent resolved with realpath; final component
followed iff the call follows links) and must lie under the allowed root.  Read-only
metadata calls on ancestors of the root are allowed (resolving the root itself walks them).
"""

import builtins
import os

_orig = {}
_WRAPPED = ['stat', 'lstat', 'readlink', 'open', 'scandir', 'listdir', 'mkdir', 'rmdir', 'remove', 'unlink',
            'rename', 'replace', 'link', 'symlink', 'chmod', 'chown', 'lchown', 'utime', 'truncate', 'statvfs',
            'access', 'makedirs']
_state = {'mon': None}


class Monitor:
    META = ('stat', 'lstat', 'readlink', 'statvfs', 'access')

    def __init__(self, root, extra_ok=()):
        self.meta_outside = []      # stat-family probes outside the root: observations, not violations
        self.root = _real(root)
        self.extra_ok = [_real(p) for p in extra_ok]
        self.violations = []
        self.calls = 0
        self.enabled = True

    def physical(self, path, follow):
        p = os.fsdecode(path) if not isinstance(path, int) else None
        if p is None:
            return None
        if not os.path.isabs(p):
            p = os.path.join(os.getcwd(), p)
        if follow:
            return _real(p)
        p = p.rstrip('/') or '/'
        d, b = os.path.split(p)
        if b in ('', '.', '..'):
            return _real(p)
        return os.path.join(_real(d), b)

    def inside(self, phys):
        for r in [self.root] + self.extra_ok:
            if phys == r or phys.startswith(r.rstrip('/') + '/'):
                return True
        return False

    def check(self, op, path, follow, readonly):
        if not self.enabled or isinstance(path, int):
            return
        self.calls += 1
        self.enabled = False
        try:
            phys = self.physical(path, follow)
        finally:
            self.enabled = True
        if phys is None or self.inside(phys):
            return
        ancestor = self.root == phys or self.root.startswith(phys.rstrip('/') + '/') or phys == '/'
        if readonly and ancestor:
            return
        if op in self.META:
            # not an audit event; the property observes opens, listings and modifications
            self.meta_outside.append((op, os.fsdecode(path), phys))
            return
        self.violations.append((op, os.fsdecode(path), phys, readonly))
        if not readonly:
            # never let the code under test actually modify anything outside its sandbox
            raise PermissionError(13, 'blocked by the verification monitor', os.fsdecode(path))


def _real(p):
    return _orig['realpath'](p) if 'realpath' in _orig else os.path.realpath(p)


def install():
    if _orig:
        return
    _orig['realpath'] = os.path.realpath
    _orig['builtins.open'] = builtins.open
    for name in _WRAPPED:
        if hasattr(os, name):
            _orig[name] = getattr(os, name)

    def mon():
        return _state['mon']

    def wrap(name, follow, readonly, two=False):
        fn = _orig[name]

        def wrapper(*a, **kw):
            m = mon()
            if m is not None and m.enabled and a:
                f = follow
                if 'follow_symlinks' in kw and not kw['follow_symlinks']:
                    f = False
                m.check(name, a[0], f, readonly)
                if two and len(a) > 1:
                    m.check(name + ':dst', a[1], False, readonly)
            return fn(*a, **kw)
        wrapper.__name__ = name
        return wrapper
    spec = {
        'stat': (True, True), 'lstat': (False, True), 'readlink': (False, True), 'scandir': (True, True),
        'listdir': (True, True), 'statvfs': (True, True), 'access': (True, True),
        'mkdir': (False, False), 'makedirs': (False, False), 'rmdir': (False, False), 'remove': (False, False),
        'unlink': (False, False), 'chmod': (True, False), 'chown': (True, False), 'lchown': (False, False),
        'utime': (True, False), 'truncate': (True, False),
    }
    for name, (follow, ro) in spec.items():
        if name in _orig:
            setattr(os, name, wrap(name, follow, ro))
    for name in ('rename', 'replace'):
        setattr(os, name, wrap(name, False, False, two=True))

    def link(src, dst, **kw):
        m = mon()
        if m is not None and m.enabled:
            m.check('link:src', src, False, False)
            m.check('link:dst', dst, False, False)
        return _orig['link'](src, dst, **kw)

    def symlink(src, dst, **kw):
        m = mon()
        if m is not None and m.enabled:
            m.check('symlink:dst', dst, False, False)
        return _orig['symlink'](src, dst, **kw)

    def os_open(path, flags, *a, **kw):
        m = mon()
        if m is not None and m.enabled:
            ro = (flags & (os.O_WRONLY | os.O_RDWR | os.O_CREAT | os.O_TRUNC | os.O_APPEND)) == 0
            m.check('os.open', path, not flags & os.O_NOFOLLOW, ro)
        return _orig['open'](path, flags, *a, **kw)

    def b_open(file, mode='r', *a, **kw):
        m = mon()
        if m is not None and m.enabled and not isinstance(file, int):
            ro = not any(c in mode for c in 'wax+')
            m.check('open', file, True, ro)
        return _orig['builtins.open'](file, mode, *a, **kw)
    os.link, os.symlink, os.open = link, symlink, os_open
    builtins.open = b_open


def start(root, extra_ok=()):
    install()
    m = Monitor(root, extra_ok)
    _state['mon'] = m
    return m


def stop():
    _state['mon'] = None


def tree_digest(path):
    """structure+content hash of a directory tree (does not follow links)"""
    import hashlib
    m = _state['mon']
    _state['mon'] = None
    try:
        h = hashlib.sha256()
        for d, dirs, files in os.walk(path):
            dirs.sort()
            h.update(d.encode() + b'\0')
            for n in sorted(files) + [x for x in dirs if os.path.islink(os.path.join(d, x))]:
                p = os.path.join(d, n)
                h.update(n.encode() + b'\0')
                if os.path.islink(p):
                    h.update(b'L' + os.readlink(p).encode())
                else:
                    with _orig.get('builtins.open', open)(p, 'rb') as f:
                        h.update(f.read())
        return h.hexdigest()
    finally:
        _state['mon'] = m
