"""vloop -- an asyncio event loop and in-memory network owned by the explorer.

Nothing in here touches a selector, a socket or the wall clock.  The loop is
stepped by hand; every source of environment nondeterminism (byte delivery,
executor jobs, timers, connection loss) is a pending *event* that the harness
fires explicitly.  See DESIGN.md section 1.1.
"""

import asyncio
import collections
import gc
import heapq
import socket as _socket
from asyncio import events

EOF = object()          # half-close / close marker inside a pipe queue


class Chunk(bytes):
    """One transport.write(); .label is the plaintext SSH message type when known"""
    label = None


class Livelock(BaseException):
    """quiesce() hit its step horizon"""


class WorkBudgetExceeded(BaseException):
    """A single callback exceeded its work budget (C10).  BaseException so that
    asyncssh's `except Exception: internal_error()` wrappers cannot eat it."""


class VTransport(asyncio.Transport):
    """One end of an in-memory duplex byte pipe."""

    def __init__(self, loop, protocol, sockname, peername, label=''):
        super().__init__()
        self.loop = loop
        self.protocol = protocol
        self.label = label
        self.peer = None                    # VTransport of the other end
        self.outq = collections.deque()     # chunks written by us, not yet delivered
        self.closing = False                # close()/abort() called locally
        self.lost = False                   # connection_lost delivered locally
        self.eof_sent = False
        self.eof_rcvd = False
        self.paused = False
        self.writes = []                    # every write (bytes), in order
        self.bytes_written = 0
        self.write_cap = None               # C10 output cap (bytes)
        self.wlimit = None                  # (high, low) write-buffer water marks: None = unbounded kernel buffer
        self.wpaused = False
        self.next_label = None
        self._extra = {'sockname': sockname, 'peername': peername,
                       'socket': None}
        loop.transports.append(self)

    # -- asyncio.Transport API ------------------------------------------
    def get_extra_info(self, name, default=None):
        return self._extra.get(name, default)

    def is_closing(self):
        return self.closing or self.lost

    def set_protocol(self, protocol):
        self.protocol = protocol

    def get_protocol(self):
        return self.protocol

    def write(self, data):
        if not isinstance(data, (bytes, bytearray, memoryview)):
            raise TypeError('data must be bytes-like')
        data = bytes(data)
        if self.closing or self.lost or not data:
            return
        if self.eof_sent:
            raise RuntimeError('Cannot call write() after write_eof()')
        data = Chunk(data)
        data.label = self.next_label
        self.next_label = None
        self.writes.append(data)
        self.bytes_written += len(data)
        if self.write_cap is not None and self.bytes_written > self.write_cap:
            self.loop.budget_tripped = 'output cap %d exceeded' % self.write_cap
            raise WorkBudgetExceeded(self.loop.budget_tripped)
        self.outq.append(data)
        self._maybe_pause_protocol()
        self.loop.n_writes += 1
        if self.loop.n_writes > self.loop.write_budget:
            self.loop.budget_tripped = 'more than %d transport writes in one execution' \
                % self.loop.write_budget
            self.loop.write_budget *= 2
            raise WorkBudgetExceeded(self.loop.budget_tripped)

    def writelines(self, lines):
        self.write(b''.join(lines))

    def queued_bytes(self):
        return sum(len(c) for c in self.outq if c is not EOF)

    def _maybe_pause_protocol(self):
        # like asyncio's _FlowControlMixin: undelivered output above the high-water mark pauses the writer
        if self.wlimit is not None and not self.wpaused and self.queued_bytes() > self.wlimit[0]:
            self.wpaused = True
            self.protocol.pause_writing()

    def _maybe_resume_protocol(self):
        if self.wpaused and self.queued_bytes() <= self.wlimit[1]:
            self.wpaused = False
            if not self.lost:
                self.protocol.resume_writing()

    def can_write_eof(self):
        return True

    def write_eof(self):
        if self.eof_sent or self.closing:
            return
        self.eof_sent = True
        self.outq.append(EOF)

    def get_write_buffer_size(self):
        return 0

    def get_write_buffer_limits(self):
        return (0, 0)

    def set_write_buffer_limits(self, high=None, low=None):
        pass

    def pause_reading(self):
        self.paused = True

    def resume_reading(self):
        self.paused = False

    def is_reading(self):
        return not self.paused and not self.closing

    def close(self):
        if self.closing or self.lost:
            return
        self.closing = True
        if not self.eof_sent:
            self.eof_sent = True
            self.outq.append(EOF)
        self.loop.call_soon(self._connection_lost, None)

    def abort(self):
        self.close()

    # -- internals ------------------------------------------------------
    def _connection_lost(self, exc):
        if self.lost:
            return
        self.lost = True
        self.closing = True
        try:
            self.protocol.connection_lost(exc)
        finally:
            pass

    def pending(self):
        """Number of queued items the peer wrote that we have not received"""
        return len(self.peer.outq) if self.peer is not None else 0

    def __repr__(self):
        return '<VTransport %s>' % self.label


class VServer(asyncio.AbstractServer):
    def __init__(self, loop, factory, addrs, sock=None, path=None):
        self.loop = loop
        self.factory = factory
        self.addrs = addrs
        self.sock = sock
        self.path = path
        self.closed = False
        self.accepted = 0
        self._close_waiters = []

    def close(self):
        if self.closed:
            return
        self.closed = True
        for fut in self._close_waiters:
            if not fut.done():
                fut.set_result(None)
        self._close_waiters = []
        for a in self.addrs:
            if self.loop.listeners.get(a) is self:
                del self.loop.listeners[a]
        if self.sock is not None:
            self.sock.close()

    async def wait_closed(self):
        # like asyncio.Server (3.12.1+): blocks until close() was called
        if self.closed:
            return None
        fut = self.loop.create_future()
        self._close_waiters.append(fut)
        await fut
        return None

    def is_serving(self):
        return not self.closed

    def get_loop(self):
        return self.loop

    @property
    def sockets(self):
        if self.closed:
            return ()
        return tuple(_FakeSock(a) for a in self.addrs)

    async def start_serving(self):
        pass


class _FakeSock:
    def __init__(self, addr):
        self._addr = addr
        self.family = _socket.AF_UNIX if isinstance(addr, str) else _socket.AF_INET

    def getsockname(self):
        return self._addr

    def fileno(self):
        return -1


class Job:
    """A run_in_executor job waiting to be fired by the explorer"""

    def __init__(self, fut, func, args):
        self.fut, self.func, self.args = fut, func, args
        self.done = False

    def fire(self):
        self.done = True
        if self.fut.cancelled():
            return
        try:
            res = self.func(*self.args)
        except Exception as exc:            # pylint: disable=broad-except
            self.fut.set_exception(exc)
        else:
            self.fut.set_result(res)


class VLoop(asyncio.BaseEventLoop):
    def __init__(self, auto_executor=False):
        super().__init__()
        self._vtime = 1000.0
        self.auto_executor = auto_executor  # True: executor jobs complete via call_soon
        self.jobs = []
        self.transports = []
        self.listeners = {}                 # addr -> VServer
        self.connect_log = []               # (kind, addr, ok)
        self.pending_connects = []          # (host, port, future) of connects held back by slow_connect
        self.slow_connect = None
        self.exc_log = []
        self.n_steps = 0
        self.n_handles = 0
        self.n_writes = 0
        self.budget_tripped = None
        self.write_budget = 200000          # transport writes per execution (spin guard)
        self.handle_cap = None              # per-quiesce cap on handles (C10)
        self.resolver = {}                  # host -> addr
        self.set_exception_handler(self._on_exception)
        self._next_port = 40000

    # -- overrides ------------------------------------------------------
    def time(self):
        return self._vtime

    def _process_events(self, event_list):
        pass

    def _write_to_self(self):
        pass

    def _on_exception(self, loop, context):
        self.exc_log.append(context)

    def run_in_executor(self, executor, func, *args):
        fut = self.create_future()
        job = Job(fut, func, args)
        if self.auto_executor:
            self.call_soon(job.fire)
        else:
            self.jobs.append(job)
        return fut

    async def getaddrinfo(self, host, port, *, family=0, type=0, proto=0,
                          flags=0):
        if isinstance(host, bytes):
            host = host.decode()
        addr = self.resolver.get(host, host)
        if addr is None:
            raise _socket.gaierror(_socket.EAI_NONAME, 'Name or service not known')
        if isinstance(addr, (list, tuple)):
            # a name with several addresses (dual-stack / round-robin): one entry each, in order
            out = []
            for a in addr:
                fam = _socket.AF_INET6 if ':' in a else _socket.AF_INET
                sa = (a, port) if fam == _socket.AF_INET else (a, port, 0, 0)
                out.append((fam, _socket.SOCK_STREAM, 6, '', sa))
            return out
        if not host:
            addr = '0.0.0.0'
        fam = _socket.AF_INET6 if ':' in addr else _socket.AF_INET
        try:
            _socket.inet_pton(fam, addr)
        except OSError:
            if host in self.resolver:
                raise
            # unknown names resolve to a fake address derived from the name
            import hashlib
            h = hashlib.sha256(host.encode()).digest()
            addr, fam = '10.%d.%d.%d' % (h[0], h[1], h[2] or 1), _socket.AF_INET
        cname = host if flags & _socket.AI_CANONNAME else ''
        sa = (addr, port) if fam == _socket.AF_INET else (addr, port, 0, 0)
        return [(fam, _socket.SOCK_STREAM, 6, cname, sa)]

    async def getnameinfo(self, sockaddr, flags=0):
        for h, a in self.resolver.items():
            if a == sockaddr[0]:
                return h, str(sockaddr[1])
        return sockaddr[0], str(sockaddr[1])

    # -- virtual network --------------------------------------------------
    def _ephemeral(self):
        self._next_port += 1
        return self._next_port

    def make_pair(self, proto_a, proto_b, addr_a=('127.0.0.1', 40001),
                  addr_b=('127.0.0.1', 22), labels=('a', 'b')):
        """Create two connected transports (no connection_made calls)"""
        ta = VTransport(self, proto_a, addr_a, addr_b, labels[0])
        tb = VTransport(self, proto_b, addr_b, addr_a, labels[1])
        ta.peer, tb.peer = tb, ta
        return ta, tb

    async def create_connection(self, protocol_factory, host=None, port=None,
                                *, sock=None, family=0, flags=0, proto=0,
                                local_addr=None, **kwargs):
        if sock is not None:
            raise NotImplementedError('create_connection(sock=)')
        infos = await self.getaddrinfo(host, port)
        addr = infos[0][4][:2]
        if getattr(self, 'slow_connect', None) is not None and self.slow_connect(host, port):
            # a connect that takes time: it completes when the harness says so (complete_connect)
            fut = self.create_future()
            self.pending_connects.append((host, port, fut))
            await fut
        srv = self.listeners.get(addr) or self.listeners.get(('0.0.0.0', addr[1])) \
            or self.listeners.get(('', addr[1]))
        if srv is None or srv.closed:
            self.connect_log.append(('tcp', (host, port), False))
            raise ConnectionRefusedError(111, 'Connect call failed %r' % (addr,))
        self.connect_log.append(('tcp', (host, port), True))
        cproto = protocol_factory()
        sproto = srv.factory()
        srv.accepted += 1
        laddr = local_addr or ('127.0.0.1', self._ephemeral())
        ct, st = self.make_pair(cproto, sproto, laddr, addr,
                                ('c>%s:%s' % addr, 's<%s:%s' % addr))
        self.call_soon(sproto.connection_made, st)
        cproto.connection_made(ct)
        return ct, cproto

    def open_connects(self):
        self.pending_connects = [c for c in self.pending_connects if not c[2].done()]
        return self.pending_connects

    def complete_connect(self, idx=0):
        host, port, fut = self.open_connects().pop(idx)
        fut.set_result(None)

    async def create_unix_connection(self, protocol_factory, path=None, *,
                                     sock=None, **kwargs):
        srv = self.listeners.get(path)
        if srv is None or srv.closed:
            self.connect_log.append(('unix', path, False))
            raise FileNotFoundError(2, 'No such file or directory')
        self.connect_log.append(('unix', path, True))
        cproto = protocol_factory()
        sproto = srv.factory()
        srv.accepted += 1
        ct, st = self.make_pair(cproto, sproto, '', path,
                                ('c>%s' % path, 's<%s' % path))
        self.call_soon(sproto.connection_made, st)
        cproto.connection_made(ct)
        return ct, cproto

    async def create_server(self, protocol_factory, host=None, port=None, *,
                            sock=None, family=0, flags=0, backlog=100,
                            reuse_address=None, reuse_port=None, **kwargs):
        if sock is not None:
            addr = sock.getsockname()[:2]
            addrs = [addr]
        else:
            if not port:
                port = self._ephemeral()
            hosts = [host] if isinstance(host, str) or host is None else list(host)
            addrs = []
            for h in hosts:
                infos = await self.getaddrinfo(h or '', port)
                addrs.append(infos[0][4][:2])
        for a in addrs:
            if a in self.listeners:
                raise OSError(98, 'Address already in use')
        srv = VServer(self, protocol_factory, addrs, sock=sock)
        for a in addrs:
            self.listeners[a] = srv
        return srv

    async def create_unix_server(self, protocol_factory, path=None, *,
                                 sock=None, **kwargs):
        if path in self.listeners:
            raise OSError(98, 'Address already in use')
        srv = VServer(self, protocol_factory, [path], path=path)
        self.listeners[path] = srv
        return srv

    # -- stepping ---------------------------------------------------------
    def step(self):
        """One iteration of the loop without I/O polling."""
        sched = self._scheduled
        while sched and sched[0]._cancelled:
            self._timer_cancelled_count -= 1
            h = heapq.heappop(sched)
            h._scheduled = False
        end = self._vtime + self._clock_resolution
        while sched and sched[0]._when < end:
            h = heapq.heappop(sched)
            h._scheduled = False
            self._ready.append(h)
        ntodo = len(self._ready)
        self.n_steps += 1
        for _ in range(ntodo):
            h = self._ready.popleft()
            if h._cancelled:
                continue
            self.n_handles += 1
            h._run()
        h = None
        return ntodo

    def quiesce(self, horizon=20000):
        n = 0
        start = self.n_handles
        while self._ready or self._due():
            self.step()
            n += 1
            if self.budget_tripped:
                raise Livelock(self.budget_tripped)
            if n > horizon or (self.handle_cap is not None and
                               self.n_handles - start > self.handle_cap):
                self.budget_tripped = self.budget_tripped or \
                    'loop did not quiesce within %d steps' % n
                raise Livelock(self.budget_tripped)
        return n

    def _due(self):
        sched = self._scheduled
        while sched and sched[0]._cancelled:
            self._timer_cancelled_count -= 1
            h = heapq.heappop(sched)
            h._scheduled = False
        return bool(sched) and sched[0]._when < self._vtime + self._clock_resolution

    # -- environment events ----------------------------------------------
    def next_timer(self):
        self._due()
        return self._scheduled[0]._when if self._scheduled else None

    def advance(self, to=None):
        """Advance the virtual clock to the next timer (or to `to`)"""
        when = self.next_timer() if to is None else to
        if when is None:
            return False
        self._vtime = max(self._vtime, when)
        return True

    def pending_jobs(self):
        self.jobs = [j for j in self.jobs if not j.done]
        return self.jobs

    def fire_job(self, idx=0):
        jobs = self.pending_jobs()
        job = jobs.pop(idx)
        job.fire()

    def deliverable(self):
        """Transports that have something to receive and are not paused/lost"""
        return [t for t in self.transports
                if not t.lost and not t.closing and not t.paused and t.peer is not None
                and t.peer.outq]

    def deliver(self, t, nbytes=None, whole_queue=False):
        """Deliver to transport `t` the next chunk its peer wrote.

        nbytes=None: one whole write (or EOF marker);  nbytes=k: at most k bytes
        (coalescing across writes); whole_queue: everything up to the next EOF
        marker as one data_received call."""
        q = t.peer.outq
        if not q:
            return None
        if q[0] is EOF:
            q.popleft()
            t.eof_rcvd = True
            self.call_soon(self._deliver_eof, t)
            return EOF
        if whole_queue:
            parts = []
            while q and q[0] is not EOF:
                parts.append(q.popleft())
            data = b''.join(parts)
        elif nbytes is None:
            data = q.popleft()
        else:
            parts = []
            need = nbytes
            while need and q and q[0] is not EOF:
                c = q[0]
                if len(c) <= need:
                    parts.append(q.popleft())
                    need -= len(c)
                else:
                    parts.append(c[:need])
                    rest = Chunk(c[need:])
                    rest.label = getattr(c, 'label', None)
                    q[0] = rest
                    need = 0
            data = b''.join(parts)
        self.call_soon(self._deliver_data, t, data)
        if t.peer.wpaused:
            self.call_soon(t.peer._maybe_resume_protocol)
        return data

    def inject(self, t, data):
        """Deliver bytes to `t` that its peer never wrote (adversary)"""
        self.call_soon(self._deliver_data, t, data)

    def _deliver_data(self, t, data):
        if t.lost or t.closing:
            return
        t.protocol.data_received(data)

    def _deliver_eof(self, t):
        if t.lost or t.closing:
            return
        keep = t.protocol.eof_received()
        if not keep:
            t.close()

    def cut(self, t, exc=None):
        """Kill the connection: both ends get connection_lost"""
        for x in (t, t.peer):
            if x is not None and not x.lost:
                x.closing = True
                x.outq.clear()
                self.call_soon(x._connection_lost, exc)

    def flush_all(self, horizon=20000, whole_queue=False, jobs=True, order=None):
        """Default environment: deliver everything FIFO until nothing is pending"""
        n = 0
        while True:
            self.quiesce(horizon)
            d = self.deliverable()
            if d:
                if order:
                    d.sort(key=order)
                self.deliver(d[0], whole_queue=whole_queue)
            elif jobs and self.pending_jobs():
                self.fire_job(0)
            else:
                return n
            n += 1
            if n > horizon:
                raise Livelock('flush_all horizon')

    # -- lifecycle --------------------------------------------------------
    def arm_watchdog(self, seconds=30):
        """CPU-time guard for one execution: a spin inside a single callback becomes a reported
        Livelock instead of a hung check.  The timer counts the process's own CPU time (ITIMER_PROF),
        not wall time: a loaded machine, which only delays an execution, can never trip it."""
        import signal

        def on_alarm(_sig, _frm):
            self.budget_tripped = 'execution exceeded %d s of CPU time inside the loop' % seconds
            signal.setitimer(signal.ITIMER_PROF, 5)     # keep firing until control returns
            raise WorkBudgetExceeded(self.budget_tripped)
        try:
            signal.signal(signal.SIGPROF, on_alarm)
            signal.setitimer(signal.ITIMER_PROF, seconds)
            self._watchdog = True
        except ValueError:          # not in the main thread
            self._watchdog = False

    def disarm_watchdog(self):
        if getattr(self, '_watchdog', False):
            import signal
            signal.setitimer(signal.ITIMER_PROF, 0)
            self._watchdog = False

    def install(self):
        self._prev_running = events._get_running_loop()
        events._set_running_loop(self)
        self._thread_id = __import__('threading').get_ident()
        return self

    def uninstall(self):
        events._set_running_loop(getattr(self, '_prev_running', None))
        self._thread_id = None

    def __enter__(self):
        return self.install()

    def __exit__(self, *a):
        self.uninstall()
        self.shutdown()

    def shutdown(self):
        """Drop everything still pending without running it"""
        self._ready.clear()
        self._scheduled.clear()
        self.jobs.clear()
        if not self.is_closed():
            self._closed = True
        # A finished world is one big reference cycle (futures -> tracebacks -> frames -> loop) that needs
        # two full collections to go away; left to the generational heuristics a long enumeration grows by
        # ~60 kB per execution (a thorough run reached 6 GB per worker).  Collect explicitly now and then.
        VLoop._shutdowns += 1
        if VLoop._shutdowns % 64 == 0:
            gc.collect()

    _shutdowns = 0

    def unretrieved(self):
        """exception-handler log after forcing GC (exception never retrieved)"""
        gc.collect(1)
        return list(self.exc_log)

    def pending_tasks(self):
        return [t for t in asyncio.all_tasks(self) if not t.done()]
