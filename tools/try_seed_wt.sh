#!/bin/sh
# usage: tools/try_seed_wt.sh <abs patch.diff> <property-id> [tier]
# Like try_seed.sh but leaves /repo alone: applies the patch in a scratch worktree of /repo HEAD,
# runs the check against it (VERIF_REPO) with evidence/violations redirected (VERIF_OUT), removes both.
# Safe to run several at once and while other checks are using /repo.
P="$1"; ID="$2"; TIER="${3:-quick}"
WT="/tmp/ts/wt.$$"; OUT="/dev/shm/ts.$$"
mkdir -p /tmp/ts "$OUT"
git -C /repo worktree add --detach "$WT" HEAD -q || exit 2
git -C "$WT" apply "$P" || { echo "patch does not apply"; git -C /repo worktree remove --force "$WT"; exit 2; }
cd "$(dirname "$0")/.."
VERIF_REPO="$WT" VERIF_OUT="$OUT" timeout 3600 ./check "$ID" --tier "$TIER" > "$OUT/log" 2>&1
RC=$?
grep -c "^VIOLATION" "$OUT/log" | sed 's/^/violations printed: /'
grep -A2 "^VIOLATION" "$OUT/log" | cut -c1-400 | head -12
tail -1 "$OUT/log"
git -C /repo worktree remove --force "$WT"
rm -rf "$OUT"
echo "exit=$RC"
