#!/usr/bin/env python3
"""usage: import_seed.py <PROP> <srcdir> <patch> <demo> <meta> <verify.json>
Copies a verified seeded change into /verif/seeded/<PROP>-<k>/ (patch.diff, demo.py, meta.json)."""
import json, os, shutil, sys
prop, src, patch, demo, meta, ver = sys.argv[1:7]
root = os.path.join(os.path.dirname(os.path.dirname(os.path.abspath(__file__))), 'seeded')
os.makedirs(root, exist_ok=True)
k = 1
while os.path.exists(os.path.join(root, '%s-%d' % (prop, k))):
    k += 1
dst = os.path.join(root, '%s-%d' % (prop, k))
v = json.load(open(ver))
assert v['applies'] and v['demo_exit_clean'] == 0 and v['demo_exit_mutated'] != 0 and '161/161' in v['baseline'], v
os.makedirs(dst)
shutil.copy(os.path.join(src, patch), os.path.join(dst, 'patch.diff'))
shutil.copy(os.path.join(src, demo), os.path.join(dst, 'demo.py'))
m = json.load(open(os.path.join(src, meta)))
out = {
    'property': prop,
    'summary': m.get('summary'),
    'needs_to_manifest': m.get('needs_to_manifest'),
    'files_changed': m.get('files_changed'),
    'origin': 'independent sub-agent given only the property text and a scratch worktree',
    'confirmed_by_me': {
        'what_i_ran': 'tools/verify_seed.sh in a fresh scratch worktree of /repo HEAD %s: git apply; demo.py without and with the patch; tools/baseline_check.py (the 161 stable tests)' % v['repo_head'],
        'patch_applies': v['applies'], 'demo_exit_clean': v['demo_exit_clean'],
        'demo_exit_mutated': v['demo_exit_mutated'], 'baseline_with_patch': v['baseline'].strip()},
    'detected_by': None,
}
json.dump(out, open(os.path.join(dst, 'meta.json'), 'w'), indent=1)
print(dst)
