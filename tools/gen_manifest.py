#!/usr/bin/env python3
"""Regenerate MANIFEST.json from the table below (one row per claimed check)."""
import json, os
HERE = os.path.dirname(os.path.dirname(os.path.abspath(__file__)))

CHECKS = {
 'C19': dict(level='model_checking', design='2/C19',
   technique='deviation-bounded stateless DFS over packet delivery orders for (stream x chunking x read-call menu) on the real stream API with a splitter reference model; exhaustive enumeration of server event orders from the independent peer for exit-status/output completeness; drain under all delivery orders and connection loss at every step',
   text='Server writes a stream; the client reads it with one of 15 call menus while the transport chunks it at 1,2,3,5 or 32768 bytes and packets are delivered in every order within the bound: every result must equal the splitter model of the whole stream (exact n, up to and including the first separator match for single, multiple and regex separators, one line, everything to EOF, IncompleteReadError partial/expected). refpeer sends stdout/stderr data, EOF and exit-status or exit-signal in all 184 permitted orders before CLOSE: the reported status comes with complete output. Nine redirection kinds copy all data then EOF as requested. drain() never returns while more than the high-water mark is buffered and fails or returns when the connection is lost at any step.',
   note='OS-pipe redirection targets are not covered (no pipe support in the virtual loop); bound 1 in quick.'),
 'C18': dict(level='exploration', design='2/C18',
   technique='exhaustive enumeration of configuration programs (sequences of conditional blocks over a header alphabet x option-set variants x targets) resolved by the real SSHClientConfig and compared with what OpenSSH `ssh -G` resolves for the same file; exhaustive template x user-name enumeration for the server-side %u expansion',
   text='Every sequence of 1-2 (thorough 3) blocks over 18 Host/Match headers, each block assigning every option under test a distinct value so the result identifies which blocks applied and in which order, in three variants (plain; = and quoted spellings, Hostname with %h, IdentityFile tokens %h %r %p %n %% %d %u, accumulating SendEnv/SetEnv; Include of existing, nested and non-matching files), for 12 targets: User, Hostname, Port, Compression, ProxyJump, IdentityFile list, SendEnv and SetEnv must equal ssh -G. Server: 7 AuthorizedKeysFile templates x 31 user names: IllegalUserName, or the name inserted as inert text inside single path components.',
   note='Match exec / canonical / final need DNS or a shell and are not generated; ssh -G prints IdentityFile unexpanded, tokens are expanded per ssh_config(5).'),
 'C17': dict(level='exploration', design='2/C17',
   technique='bounded-exhaustive enumeration of known_hosts files x queries and authorized_keys option lists x clients on the real lookup code against a reference model written from the OpenSSH file-format rules (plus documented extensions), with ssh-keygen -F as a second implementation',
   text='Every host pattern list of 1-2 atoms over a 19-atom alphabet (names, wildcards incl. address-only ones, negation, addresses, CIDR, [host]:port, bracketed names) plus hashed forms x 3 markers in 1- and 2-line files is looked up for 51 (host, address, port) queries; the returned trusted/CA/revoked key sets must equal the model (positive-and-not-negative rule, hashed names, port form with fallback to the plain name). ssh-keygen -F must agree on its subset. 19 damaged key fields (incl. well-framed keys with impossible parameters) before/between/after good lines must be skipped in both file types. authorized_keys option lists of 0-3 atoms over 21 option atoms x 4 clients x principal sets must select the same entries with the same option values as the model.',
   note='numeric/CIDR patterns are compared for the default port only; revoked sets are compared only when something trusted matched.'),
 'C16': dict(level='exploration', design='2/C16',
   technique='exhaustive single-edit enumeration of signatures, certificates and SSHSIG blobs on the real verification code, an exhaustive acceptance grid of hand-built certificates against an independent predicate, and ssh-keygen as second implementation',
   text='Every key type x signature algorithm x 3 messages: the signature verifies; every single-byte xor/delete/insert of the signature blob, message edits, relabelling with every other algorithm name and another key must not verify. Every single-byte edit of user and host certificates from 7 CA key types must fail import or validation. A grid of hand-built ed25519 certificates (type x intended use x validity window touching the clock x principals x wanted principal x critical options and extensions incl. unknown ones) is compared with a predicate from PROTOCOL.certkeys; ssh-keygen -s output is read identically and asyncssh certificates are printed correctly by ssh-keygen -L. SSHSIG: 13 allowed-signers option forms x clock x principal, message/namespace/CA binding, every single-byte edit, ssh-keygen -Y both ways.',
   note='two names for the byte-identical algorithm (rsa-sha2-256 / ssh-rsa-sha256@ssh.com) are treated as one algorithm; sk-* and X.509 not covered.'),
 'C15': dict(level='exploration', design='2/C15',
   technique='exhaustive enumeration of the key type x format x cipher x hash x PBES version x passphrase x comment matrix executed on the real import/export code, with PyCA, ssh-keygen and openssl as independent readers and writers',
   text='For 7 key types every private export scheme asyncssh offers (5 plain, 5 PKCS#1 ciphers, 2x6 PBES1/PKCS#12 and 2x35 PBES2 combinations) is exported and re-imported: equal key, same public half; five wrong-passphrase variants (incl. same first 32 characters) must be rejected with the documented error. Public formats x comments with double blanks, tabs and non-UTF-8 bytes must round-trip. PyCA loaders, ssh-keygen -y/-l/-e and openssl pkey must read the same key; keys written by ssh-keygen (3 formats) and openssl pkcs8 -topk8 (PKCS#12 KDF and PBES2, passphrases of 1..33 characters) must be read identically by asyncssh; concatenated multi-key files in every order.',
   note='OpenSSH-format encrypted private keys need bcrypt (absent): not exportable here; sk-* keys not covered; quick runs the full passphrase grid on one scheme per family.'),
 'C13': dict(level='model_checking', design='2/C13',
   technique='bounded-exhaustive enumeration of path strings x request kinds and explicit-state search over sequences of link/dir-creating requests against the real SFTP server code under a filesystem-call monitor; exhaustive enumeration of hostile SCP record sequences and SFTP listings against the real download code under the same monitor',
   text='Server: every path of <= 2 (thorough 3) components over a 9-symbol alphabet with 0-3 leading slashes x 22 request kinds x 3 prepared trees; every sequence of <= 2 (thorough 3) symlink/mkdir/rename requests followed by 52 accesses, states deduplicated by tree structure. A monitor wraps every path-taking os call and open(): nothing outside the root may be opened, listed or modified and no reply may carry outside content. Downloads: every SCP record sequence up to length 3 over {C,D,E,T,warning,fatal} x 11 hostile names, and recursive get/mget against listings of 1-2 hostile entries (name x type, duplicates, nested hostile names): nothing outside the caller-named destination may be created or modified.',
   note='pre-existing links pointing outside are followed by design; stat-family probes outside the root are recorded as observations (they are not audit events) unless their result is returned to the client; one open known finding (relative link moved by rename).'),
 'C14': dict(level='model_checking', design='2/C14',
   technique='deviation-bounded DFS over reply orders and per-reply faults of concurrent real SFTPClient calls over a model server; exhaustive enumeration of request type x shape x version against the real SFTPServerHandler with a probe request; exhaustive flag-subset enumeration of the attribute codecs with an independent layout encoder',
   text='(a) 2-3 concurrent client calls; any outstanding request may be answered next, correctly or once with a wrong reply type, unknown/duplicate/foreign id, or a caller is cancelled and its reply arrives late: every caller ends with its own value or an SFTPError, and with only correct replies always with its own value. (b) For versions 3-6 every request type and extension in well-formed, every-truncation and trailing-byte shape gets exactly one reply with its id and a legal type, unknown types get OP_UNSUPPORTED, and a following request is still served; 16 errno values and 19 SFTPError classes map to the expected status per version. (c) decode(encode(x)) == x and encode layout == independent encoder for every subset of attribute field groups per version.',
   note='errno table written from the status-code definitions; SFTP v5 attrib-bits only round-tripped.'),
 'C12': dict(level='model_checking', design='2/C12',
   technique='deviation-bounded stateless DFS over reply schedules and reply faults (order, short reads, errors, premature EOF, simultaneous completions in both asyncio.wait orders) of a model SFTP server under the real SFTPClient transfer code, model file store as reference; plus end-to-end sparse transfers through the real server',
   text='get/put/copy (sparse and non-sparse) and SFTPClientFile read/write run for block size {4,8} x max_requests {1,2,3} x sizes around block/window multiples x all 16 hole layouts of a 4-block file (with/without the ranges extension) while the explorer answers any of the 3 oldest outstanding requests in full, with 1 byte, half, FAILURE, PERMISSION_DENIED or premature EOF. A normal return must leave destination == source; any failed block (or early end of a non-sparse source) must raise. End-to-end: tmpfs sparse files with up to 129 (thorough 300) extents through real client, SSH and real SFTPServer.',
   note='SFTP v3 framing in the model server; bound 1 in quick except a core subset at 2; mget/mput/mcopy and recursive drivers are exercised in C13.'),
 'C11': dict(level='model_checking', design='2/C11',
   technique='deviation-bounded stateless DFS over packet delivery orders around byte/time-triggered re-exchanges in a busy real client<->server session (stream reference model + wire-label filter), plus enumeration of re-exchange positions and algorithm changes against the independent peer which derives the new keys itself',
   text='A: seven (thorough nine) trigger configurations (byte limits from one packet up, time limits on the virtual clock, client/server/both) run ping-pong data in both directions and open a second session mid-stream; all delivery orders within the deviation bound (deviations wherever an exchange is in progress or a KEXINIT is in flight, so simultaneous initiation is reached). Data and request replies must be intact and in order, only kex/transport messages may be emitted between an endpoint\'s KEXINIT and NEWKEYS, the session id must not change. B: refpeer or asyncssh initiates a re-exchange after auth, after channel open and mid-data while the cipher/MAC suite changes among 4 suites; refpeer verifies every later packet under keys it derived from the new K,H and the old session id, and the key material must differ.',
   note='delayed NEWKEYS by the peer and GSS re-exchange not driven.'),
 'C04': dict(level='model_checking', design='2/C04',
   technique='exhaustive bounded enumeration of (known_hosts text x target port x server credential x clock boundary) through real handshakes on the controlled loop against an independent acceptance predicate; lying servers scripted with the independent peer; two-step histories on a shared known_hosts object compared with a fresh object',
   text='Every 1-line known_hosts file over 15 pattern forms x 3 markers x 4 keys (ports 22 and 2222) and every 2-line file over a reduced second-line alphabet is combined with 14 server credentials (plain keys; host certificates whose validity windows touch the virtual clock exactly, with principal variations, wrong type, other CA, altered body). If the predicate rejects, connect must fail with a host-key/kex error and no USERAUTH_REQUEST may leave the client. Servers that present a trusted blob they cannot sign for are played by refpeer. Shared-object histories must give the same outcome as a fresh object.',
   note='the predicate encodes the property wording only; acceptance of a trusted server is asserted only in unambiguous cases (plain key, default port); X.509 and GSS not driven.'),
 'C03': dict(level='fault_enumeration', design='2/C03',
   technique='exhaustive enumeration of single edits of the cleartext handshake (version lines, every KEXINIT field and name-list, every key exchange message) by an on-path editor between a real client and server for every non-GSS kex method, plus exhaustive enumeration of preference-list pairs through real handshakes',
   text='For each of the 31 non-GSS key exchange methods and each direction every edit in the catalogue is applied to one cleartext message of a deterministic handshake; afterwards neither side may be authenticated and the server must not have accepted a USERAUTH request. Unedited runs must end with equal session ids. For kex, cipher, MAC, compression and host key algorithm every ordered pair of non-empty permutation sub-lists of a 3-4 algorithm alphabet is negotiated for real and the result must be the first client entry the server supports (or KeyExchangeFailed).',
   note='padding bytes of cleartext packets are not edited; slow DH groups get a sixth of the edits in quick; GSS kex not driven.'),
 'C01': dict(level='fault_enumeration', design='2/C01',
   technique='exhaustive enumeration of single faults (bit flips by region, truncation, drop, duplicate, swap, insertion, splice) by an on-path editor on the ciphertext of a live real client<->server session, for every negotiable cipher x MAC x compression combination and both directions; prefix-of-baseline oracle',
   text='For every configuration and direction a fault is applied at a chosen encrypted packet of a deterministic session; the receiving application must have received exactly the data of the packets before the first altered byte, nothing afterwards, and the receiver must end with an integrity/protocol error or stall and then fail with ConnectionLost at EOF. Quick covers every cipher x MAC pair plus both zlib variants with every cipher and every MAC, three target packets and boundary positions of each packet region; thorough covers the full product, every packet and every byte.',
   note='single fault per execution; same algorithms in both directions (asymmetric negotiation is covered against the independent peer in C02); cryptographic weakness of legacy ciphers is out of scope.'),
 'C10': dict(level='exploration', design='2/C10',
   technique='bounded-exhaustive enumeration of hostile inputs (raw prefixes, single-site mutations of every phase-legal message, parser corpus mutations, SOCKS byte strings, small-packet floods) executed on the real code under a deterministic work meter (transport-write budget, loop-step horizon, wall-clock watchdog)',
   text='Every execution feeds one hostile input to a real endpoint (either role) in the phase where it is accepted, after which the application keeps using its channels; the work meter must hold, no exception may reach the loop handler, and a closed connection notifies its owner exactly once. Parsers (DER, every key/certificate format, packet getters, SSHSIG, SOCKS) are fed every truncation and single-byte replacement of a seed corpus and may only raise their documented error. Output amplification is checked by doubling small-packet floods of every line-editor key.',
   note='time is measured as deterministic work (writes, loop steps) plus a wall-clock watchdog; single-site mutations only; GSS/X.509/PKCS#11 paths not driven.'),
 'C09': dict(level='model_checking', design='2/C09',
   technique='deviation-bounded stateless DFS over packet-delivery order and injected crash/close actions (cut, close/abort/disconnect of either connection, close/abort/exit of the channel on either side) at every quiescent point, real client<->server with outstanding awaits; termination + callback-order oracles at quiescence',
   text='Client programs with outstanding awaits (create_session, stream read/drain, run, SFTP requests, remote port forward, wait_closed) run against six server behaviours; at every quiescent point the explorer delivers either next packet or injects an action; all schedules within the deviation bound end with loss of the connection. Oracles: once CHANNEL_CLOSE went both ways on a live connection the channel is unregistered and its waiters resolved; after connection loss every awaited task is done, session callback words are legal with connection_lost exactly once and nothing after it, owners notified once, no channel/listener/global-request waiter left, no task pending, loop handler silent.',
   note='bound 2 for the exec program in quick, 1 elsewhere (thorough: 2 everywhere); virtual listeners only.'),
 'C08': dict(level='model_checking', design='2/C08',
   technique='deviation-bounded DFS over WINDOW_ADJUST grant sequences against a window ledger kept by an independent peer; exhaustive bounded enumeration of hostile data/pause/resume sequences; deviation-bounded DFS over delivery and reader-wakeup interleavings of the real stream API for deadlock',
   text='Sender: for each role, initial window, max packet and write list, every 5-grant sequence from a menu within the deviation bound: ledger never negative, no packet above the max packet size, all data + EOF delivered once enough is granted. Receiver: every op sequence up to depth 4 (thorough 5) over data packets sized around the window, extended data, pause and resume: excess over the advertised window is a ProtocolError also while paused, legal data is accepted, and reading restores the window. Deadlock: real client/server stream sessions, write sizes around the window, reader call menus incl. a reader that lags behind delivery, all packet-delivery/wakeup interleavings within the bound: the reader always finishes with all bytes.',
   note='max-packet-size on the receive side is not part of the property (observation only); windows up to 2^32-1 exercised on the send side only.'),
 'C06': dict(level='model_checking', design='2/C06',
   technique='exhaustive enumeration of (message type x shape x dialogue position x role x strict-kex) injections by an independent scripted peer into a real endpoint on the controlled loop, compared with the un-injected baseline run',
   text='For each role under test, each of ~10 positions of the dialogue (every own-message boundary of the initial exchange, service, auth with a request outstanding, client parked in an asynchronous credential callback, channel open/request, end), each message type 1..100,192,255 and each shape (well-formed, truncated, trailing byte), with and without strict kex, the injected run must end the connection or, for messages legal at that position / RFC-ignorable, proceed exactly like the baseline. Strict kex: anything extra in the initial exchange is fatal, and a peer that does not restart its sequence number at NEWKEYS is rejected. Thorough adds ordered pairs.',
   note='legal-at-position table from RFC 4253/4252/4254 + strict-kex extension; in-phase messages are checked for hygiene only.'),
 'C05': dict(level='model_checking', design='2/C05',
   technique='deviation-bounded stateless DFS over completion schedules (validator futures, begin_auth futures, executor jobs, packet deliveries) of every bounded USERAUTH request history, real server vs scripted independent client, auth ground-truth reference model',
   text='All histories of USERAUTH requests up to length 2 over the full alphabet and 3 (thorough 4) over a reduced one are sent pipelined by refpeer to a real SSHServerConnection whose application callbacks complete when the explorer says so; every schedule with at most 2 (thorough 3) deviations from FIFO is executed. The connection may be authenticated as U only if the history contains a credential valid for U; success and auth_completed at most once; no channel before success; enforced forced-command / port-forwarding restrictions (probed with exec and direct-tcpip) must be those of a valid credential for U. Converse: real asyncssh clients with password, key, certificate and agent-held key are admitted.',
   note='application callbacks return the ground truth but at arbitrary times; GSS / security-key / host-based methods are not driven; ed25519 client keys.'),
 'C02': dict(level='model_checking', design='2/C02',
   technique='exhaustive enumeration of algorithm configurations x payload lengths against an independent RFC 4253 codec (refpeer), plus exhaustive bounded enumeration of stream segmentations of a real<->real session on the controlled loop',
   text='Every (kex | cipher x MAC x compression) configuration refpeer implements is run in both roles with channel-data payloads of every length 0..4*blocksize+8 and around 256/32768; refpeer derives its own keys and verifies MAC/tag, sequence numbers, padding >= 4, alignment and the exact payload sequence. Every single split point of both byte streams of a complete session, every uniform chunk size 1..67 and pairs of splits around packet headers are replayed and must give the unsegmented observation. /usr/bin/ssh is run against an asyncssh server as a second independent decoder.',
   note='cryptography/OpenSSL primitives shared with asyncssh (composition independent); kex/cipher/MAC families refpeer lacks (curve448, mlkem, rsa kex, umac, blowfish/cast/seed/arcfour) are listed as uncovered in the evidence.'),
 'C07': dict(level='model_checking', design='2/C07',
   technique='explicit-state BFS over operation/delivery histories of the real client<->server channel code on a hand-stepped event loop, FIFO stream reference model',
   text='Every history of channel writes (sizes around the packet/window limits), writelines, write_eof, pause/resume and single-packet deliveries up to the stated depth, for each (window, packet size, encoding, #channels) configuration, is executed on real SSHClientConnection/SSHServerConnection objects; in every reached state delivered data must be a prefix of written data per (channel, datatype), and after draining it must be equal with EOF iff sent, once, after the data.',
   note='VLoop reproduces asyncio call_soon FIFO semantics (fidelity test in setup); bounded depth and write sizes; AES-GCM transport under the channel layer.'),
}

NOT_YET = {}

def main():
    props = [json.loads(l)['id'] for l in open(os.path.join(HERE, 'properties.jsonl'))]
    checks = []
    for pid in props:
        c = CHECKS.get(pid)
        if not c:
            continue
        checks.append({
            'property_id': pid,
            'quick_cmd': './check %s --tier quick' % pid,
            'thorough_cmd': './check %s --tier thorough' % pid,
            'evidence_file': 'evidence/%s.json' % pid,
            'replay_cmd_template': './check %s --replay {path}' % pid,
            'engine': 'vloop-explorer',
            'level_claimed': {'category': c['level'], 'text': c['text'],
                              'design_ref': 'DESIGN.md section ' + c['design']},
            'level_note': c['note'],
            'technique': c['technique'],
        })
    na = [{'property_id': pid,
           'reason': NOT_YET.get(pid, 'check not built yet in this round; model checking applies (see DESIGN.md section 2) and the property will be claimed once its harness exists')}
          for pid in props if pid not in CHECKS]
    man = {
        'version': 1,
        'setup_cmd': './setup.sh',
        'hooks': {'guard': 'ASYNCSSH_VERIF', 'enable': 'none needed: all interception is harness-side (event loop, transport, os.urandom, time); ./check exports ASYNCSSH_VERIF=1 but no source hook reads it',
                  'baseline_off_cmd': 'cd /repo && /venv/bin/python -m pytest -ra -q -p no:cacheprovider --timeout=900 --continue-on-collection-errors',
                  'source_commits': [], 'add_only': True},
        'engines': [{'name': 'vloop-explorer', 'path': 'lib/',
                     'serves_properties': sorted(CHECKS),
                     'kind_free_text': 'hand-written stateless/explicit-state explorer that runs the real asyncssh code on a hand-stepped asyncio loop with an in-memory network; deviation-bounded DFS and BFS with canonical-state dedup'}],
        'checks': checks,
        'not_applicable': na,
        'notes': 'See DESIGN.md. Known findings: known_findings.json.',
    }
    with open(os.path.join(HERE, 'MANIFEST.json'), 'w') as f:
        json.dump(man, f, indent=1)
    print('claimed', len(checks), 'not_applicable', len(na))

main()
