#!/bin/sh
# usage: tools/run_all.sh [tier] [seed] ["C04 C05 ..."]  -- runs every (or the listed) registered check, prints id, exit code, seconds
TIER="${1:-quick}"; SEED="${2:-0}"
cd "$(dirname "$0")/.."
IDS="${3:-C01 C02 C03 C04 C05 C06 C07 C08 C09 C10 C11 C12 C13 C14 C15 C16 C17 C18 C19 C20}"
for id in $IDS; do
  s=$(date +%s)
  VERIF_SEED=$SEED timeout 7200 ./check $id --tier $TIER > /dev/shm/runall.$id.$TIER.$SEED.log 2>&1
  rc=$?
  e=$(date +%s)
  echo "$id tier=$TIER seed=$SEED exit=$rc secs=$((e-s)) $(grep -c '^VIOLATION' /dev/shm/runall.$id.$TIER.$SEED.log) violations; $(tail -1 /dev/shm/runall.$id.$TIER.$SEED.log | cut -c1-120)"
done
