#!/usr/bin/env python3
"""Run the repository's stable baseline tests (the 161 listed in /root/.vp/BASELINE.json)
in a given checkout and report any that no longer pass.  usage: baseline_check.py [repo_dir]"""
import json, os, subprocess, sys, tempfile, xml.etree.ElementTree as ET
repo = os.path.abspath(sys.argv[1] if len(sys.argv) > 1 else '/repo')
base = json.load(open('/root/.vp/BASELINE.json'))
stable = set(base['stable_pass'])
mods = sorted({t.split('::')[0].rsplit('.', 1)[0] for t in stable})
files = [m.replace('.', '/') + '.py' for m in mods]
out = tempfile.mktemp(suffix='.xml', dir='/dev/shm')
env = dict(os.environ, PYTHONPATH=repo, PYTHONDONTWRITEBYTECODE='1')
env.pop('ASYNCSSH_VERIF', None)
r = subprocess.run(['/venv/bin/python', '-m', 'pytest', '-q', '-p', 'no:cacheprovider', '--timeout=900',
                    '--continue-on-collection-errors', '-x' if False else '-q', '--junitxml=' + out] + files,
                   cwd=repo, env=env, stdout=subprocess.PIPE, stderr=subprocess.STDOUT, text=True)
passed = set()
for tc in ET.parse(out).getroot().iter('testcase'):
    if not any(c.tag in ('failure', 'error', 'skipped') for c in tc):
        passed.add('%s::%s' % (tc.get('classname'), tc.get('name')))
os.unlink(out)
missing = sorted(stable - passed)
print('stable baseline: %d/%d pass' % (len(stable & passed), len(stable)))
for m in missing:
    print('  NO LONGER PASSING:', m)
sys.exit(1 if missing else 0)
