#!/bin/sh
# usage: tools/try_seed.sh <patch.diff> <property-id> [tier]
# applies the patch to /repo, runs the check, reverts. prints the check's tail.
P="$1"; ID="$2"; TIER="${3:-quick}"
cd /repo || exit 2
git diff --quiet || { echo "/repo has uncommitted changes"; exit 2; }
git apply "$P" || { echo "patch does not apply"; exit 2; }
cd /verif
./check "$ID" --tier "$TIER" > /dev/shm/try_seed.$$.log 2>&1
RC=$?
grep -c "^VIOLATION" /dev/shm/try_seed.$$.log | sed 's/^/violations printed: /'
grep -A2 "^VIOLATION" /dev/shm/try_seed.$$.log | head -12
tail -1 /dev/shm/try_seed.$$.log
rm -f /dev/shm/try_seed.$$.log
git -C /repo checkout -- .
echo "exit=$RC"
