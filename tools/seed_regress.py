#!/usr/bin/env python3
"""usage: tools/seed_regress.py [-j N] [seed-id ...]
Tries every kept seeded change (or the named ones) against the check(s) expected to catch it, in scratch
worktrees (tools/try_seed_wt.sh), N at a time, and records which checks detected it in meta.json
('detected_by').  Prints one line per seed; exit 1 if some seed is detected by nothing."""
import concurrent.futures, json, os, re, subprocess, sys
HERE = os.path.dirname(os.path.dirname(os.path.abspath(__file__)))
EXTRA = {'C01-2': ['C02'], 'C07-4': ['C19'], 'C16-3': ['C04'], 'C10-3': ['C19'], 'C08-4': ['C19'], 'C02-3': ['C11'],
         'C08-5': ['C19'], 'C11-5': ['C06'], 'C03-5': ['C02'], 'C09-6': ['C20'], 'C08-6': ['C09'], 'C07-6': ['C19'], 'C20-6': ['C07'], 'C07-7': ['C11'], 'C11-7': ['C02'], 'C16-7': ['C05'], 'C08-7': ['C19'], 'C19-7': ['C08'], 'C02-8': ['C11', 'C07'], 'C07-8': ['C20'], 'C10-8': ['C09'], 'C09-9': ['C19'], 'C07-9': ['C20'], 'C05-8': ['C17'], 'C16-9': ['C05'], 'C07-10': ['C08', 'C09'], 'C08-10': ['C20']}


def one(sid):
    d = os.path.join(HERE, 'seeded', sid)
    prop = sid.split('-')[0]
    hits = []
    for chk in [prop] + EXTRA.get(sid, []):
        r = subprocess.run([os.path.join(HERE, 'tools', 'try_seed_wt.sh'), os.path.join(d, 'patch.diff'), chk],
                           capture_output=True, text=True)
        m = re.search(r'violations printed: (\d+)', r.stdout)
        rc = re.search(r'exit=(\d+)', r.stdout)
        if m and int(m.group(1)) > 0 and rc and rc.group(1) == '1':
            sig = re.search(r'signature: (.*)', r.stdout)
            hits.append((chk, sig.group(1)[:120] if sig else ''))
    meta_p = os.path.join(d, 'meta.json')
    meta = json.load(open(meta_p))
    meta['detected_by'] = [{'check': c, 'tier': 'quick', 'first_signature': s} for c, s in hits] or None
    json.dump(meta, open(meta_p, 'w'), indent=1)
    return sid, hits


def main():
    args = sys.argv[1:]
    j = 4
    if args[:1] == ['-j']:
        j = int(args[1]); args = args[2:]
    ids = args or sorted(d for d in os.listdir(os.path.join(HERE, 'seeded')) if not d.startswith('_'))
    bad = 0
    with concurrent.futures.ThreadPoolExecutor(j) as ex:
        for sid, hits in ex.map(one, ids):
            print(sid, 'DETECTED by ' + ','.join(c for c, _ in hits) if hits else 'MISSED', flush=True)
            bad += not hits
    return 1 if bad else 0


sys.exit(main())
