#!/bin/sh
# usage: tools/verify_seed.sh <dir-with-patch-and-demo> <patch-file-name> <demo-file-name> <out.json>
# Confirms in a scratch worktree of /repo HEAD: patch applies; demo passes without and fails with
# the patch; the 161 stable baseline tests still pass with the patch.  Removes the worktree.
D="$(cd "$1" && pwd)"; PATCH="$2"; DEMO="$3"; OUT="$4"
WT="/tmp/vs/wt.$$"
mkdir -p /tmp/vs
git -C /repo worktree add --detach "$WT" HEAD -q || exit 2
export HOME=/dev/shm/seedhome.$$; mkdir -p "$HOME"
cd "$D"
PYTHONPATH="$WT" timeout 120 /venv/bin/python "$DEMO" > /dev/shm/vs.$$.clean.log 2>&1; RC_CLEAN=$?
if git -C "$WT" apply "$D/$PATCH"; then APPLIES=true; else APPLIES=false; fi
PYTHONPATH="$WT" timeout 120 /venv/bin/python "$DEMO" > /dev/shm/vs.$$.mut.log 2>&1; RC_MUT=$?
BASE="$(python3 /verif/tools/baseline_check.py "$WT" 2>&1 | head -5 | tr '\n' ' ')"
git -C /repo worktree remove --force "$WT"
rm -rf "$HOME" /dev/shm/vs.$$.clean.log /dev/shm/vs.$$.mut.log
printf '{"patch": "%s", "demo": "%s", "applies": %s, "demo_exit_clean": %s, "demo_exit_mutated": %s, "baseline": "%s", "repo_head": "%s"}\n' \
  "$PATCH" "$DEMO" "$APPLIES" "$RC_CLEAN" "$RC_MUT" "$BASE" "$(git -C /repo rev-parse --short HEAD)" > "$OUT"
cat "$OUT"
