#!/usr/bin/env python3
"""usage: tools/seed_table.py  -- prints a markdown table of every kept seeded change and the checks that detect it
(from seeded/<id>/meta.json, as filled in by tools/seed_regress.py); DESIGN.md's appendix is this output."""
import json, os, re
HERE = os.path.dirname(os.path.dirname(os.path.abspath(__file__)))
rows = []
for d in sorted(os.listdir(os.path.join(HERE, 'seeded')), key=lambda x: (x.split('-')[0], int(x.split('-')[1]) if x.split('-')[-1].isdigit() else 0)):
    if d.startswith('_'):
        continue
    m = json.load(open(os.path.join(HERE, 'seeded', d, 'meta.json')))
    det = m.get('detected_by')
    if isinstance(det, list):
        checks = ', '.join(x['check'] for x in det if isinstance(x, dict))
        sig = next((x.get('first_signature', '') for x in det if isinstance(x, dict)), '')
    else:
        checks, sig = str(det or ''), ''
    files = m.get('files_changed') or []
    if isinstance(files, str):
        files = re.findall(r"asyncssh/[\w/]+\.py", files)
    summ = (m.get('summary') or '').replace('\n', ' ').replace('|', '/')
    rows.append('| %s | %s | %s | `%s` |' % (d, ', '.join(os.path.basename(f) for f in files)[:40], checks or 'none', sig[:70].replace('|', '/')))
print('| seed | file(s) changed | detected by (quick tier) | first violation signature |')
print('|---|---|---|---|')
print('\n'.join(rows))
print()
print('%d seeded changes kept; %d detected by the check of their own property, %d only by another check, %d by none.' % (
    len(rows), sum(1 for r in rows if r.split('|')[1].strip().split('-')[0] in [c.strip() for c in r.split('|')[3].split(',')]),
    sum(1 for r in rows if r.split('|')[3].strip() not in ('none', '') and r.split('|')[1].strip().split('-')[0] not in [c.strip() for c in r.split('|')[3].split(',')]),
    sum(1 for r in rows if r.split('|')[3].strip() in ('none', ''))))
